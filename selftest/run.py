#!/usr/bin/env python3
"""selftest/run.py [--only <substr>] [--jobs N]  — test the checker both ways.
With --jobs N the patches are distributed over N scratch worktrees of /repo (under /tmp, removed afterwards); the checks are then
run with SQLGREP_REPO pointing at the worker's worktree and their evidence redirected to a scratch directory, so that neither
/repo nor the committed evidence is touched.

For every seeded change (seeded/<id>/patch[.rebased].diff) and every hand-made mutant
(selftest/mutants/*.diff) the patch is applied to /repo, the checks of the properties named in the
file name (Cxx prefixes) are run and must report a VIOLATION; for every behaviour-preserving variant
(selftest/benign/*.diff) they must stay silent.  /repo is restored after each patch.  Writes
selftest/results.json.  Not part of the registered checks."""
import glob, json, os, re, subprocess, sys

V = os.path.dirname(os.path.dirname(os.path.abspath(__file__)))
REPO = "/repo"


def sh(cmd, cwd=None):
    return subprocess.run(cmd, shell=True, cwd=cwd, capture_output=True, text=True)


def props_of(name):
    return sorted(set(re.findall(r"C\d\d", name))) or []


def run_patch(patch, props, repo=REPO, env_prefix=""):
    if sh("git status --porcelain --untracked-files=no", repo).stdout.strip():
        raise SystemExit("%s not clean" % repo)
    r = sh("git apply %s || git apply -3 %s" % (patch, patch), repo)
    if r.returncode != 0:
        sh("git reset -q --hard HEAD", repo)
        return {"applies": False}
    out = {"applies": True, "checks": {}}
    try:
        for p in props:
            c = sh("%s./check %s" % (env_prefix, p), V)
            viol = re.findall(r"^--- .*rule (\S+)", c.stdout, re.M)
            out["checks"][p] = {"rc": c.returncode, "rules": sorted(set(viol)),
                                "error": (re.findall(r"^ERROR.*", c.stdout, re.M) or [None])[0]}
    finally:
        sh("git reset -q --hard HEAD", repo)
    return out


ALL = ["C%02d" % i for i in range(1, 21)]


def main():
    only = sys.argv[sys.argv.index("--only") + 1] if "--only" in sys.argv else None
    extra = {}
    ep = os.path.join(V, "selftest", "expect.json")
    if os.path.exists(ep):
        extra = json.load(open(ep))
    results = {"mutants": {}, "seeds": {}, "benign": {}}
    rp = os.path.join(V, "selftest", "results.json")
    if only and os.path.exists(rp):
        results = json.load(open(rp))
    jobs = []
    for d in sorted(glob.glob(os.path.join(V, "seeded", "*"))):
        n = os.path.basename(d)
        p = os.path.join(d, "patch.rebased.diff")
        if not os.path.exists(p):
            p = os.path.join(d, "patch.diff")
        jobs.append(("seeds", n, p, extra.get(n, {}).get("props") or props_of(n)))
    for p in sorted(glob.glob(os.path.join(V, "selftest", "mutants", "*.diff"))):
        n = os.path.basename(p)[:-5]
        jobs.append(("mutants", n, p, extra.get(n, {}).get("props") or props_of(n)))
    for p in sorted(glob.glob(os.path.join(V, "selftest", "benign", "*.diff"))):
        n = os.path.basename(p)[:-5]
        jobs.append(("benign", n, p, ALL))
    bad = 0
    todo = [j for j in jobs if not (only and only not in j[1])]
    if "--kinds" in sys.argv:       # e.g. --kinds seeds,mutants : re-run only those kinds (results of the others are kept)
        kinds = sys.argv[sys.argv.index("--kinds") + 1].split(",")
        todo = [j for j in todo if j[0] in kinds]
        if os.path.exists(rp) and not only:
            results = json.load(open(rp))
    njobs = int(sys.argv[sys.argv.index("--jobs") + 1]) if "--jobs" in sys.argv else 1
    done = {}
    if njobs > 1:
        import concurrent.futures, queue, shutil, tempfile
        wts = queue.Queue()
        made = []
        for i in range(njobs):
            wt = "/tmp/st-wt-%d-%d" % (os.getpid(), i)
            sh("git worktree add --detach %s HEAD -q" % wt, REPO)
            ev = tempfile.mkdtemp(prefix="st-ev-")
            made.append((wt, ev))
            wts.put((wt, ev))

        def work(job):
            kind, n, p, props = job
            wt, ev = wts.get()
            try:
                return n, run_patch(p, props, repo=wt, env_prefix="SQLGREP_REPO=%s VERIF_EVIDENCE_DIR=%s VERIF_KEEP_FACTS=%d " % (wt, ev, 4 * njobs))
            finally:
                wts.put((wt, ev))
        try:
            with concurrent.futures.ThreadPoolExecutor(max_workers=njobs) as ex:
                for n, r in ex.map(work, todo):
                    done[n] = r
        finally:
            for wt, ev in made:
                sh("git worktree remove --force %s" % wt, REPO)
                shutil.rmtree(ev, ignore_errors=True)
    for kind, n, p, props in todo:
        r = done[n] if n in done else run_patch(p, props)
        results[kind][n] = r
        if not r.get("applies"):
            print("%-8s %-40s PATCH DOES NOT APPLY" % (kind, n))
            bad += 1
            continue
        detected = [q for q, c in r["checks"].items() if c["rc"] == 1]
        errors = [q for q, c in r["checks"].items() if c["rc"] not in (0, 1)]
        status = extra.get(n, {}).get("status")
        if kind == "benign" and status == "known-false-alarm":
            if detected or errors:
                print("%-8s %-40s false alarm by %s %s (recorded limitation, DESIGN.md 10.8)" % (kind, n, detected, errors))
            else:
                print("%-8s %-40s silent (ok)  [was recorded as a known false alarm: remove it from expect.json]" % (kind, n))
            continue
        if kind == "benign":
            okk = not detected and not errors
            print("%-8s %-40s %s %s" % (kind, n, "silent (ok)" if okk else "FALSE ALARM by %s %s" % (detected, errors),
                                        ""))
            bad += 0 if okk else 1
        else:
            exp_undetected = status in ("undetected", "benign-on-repaired-tree")
            if detected:
                rules = sorted(set(x for q in detected for x in r["checks"][q]["rules"]))
                print("%-8s %-40s detected by %s" % (kind, n, ", ".join(rules)))
            elif exp_undetected:
                print("%-8s %-40s not detected (recorded: %s)" % (kind, n, status))
            else:
                print("%-8s %-40s MISSED %s" % (kind, n, errors or ""))
                bad += 1
    json.dump(results, open(os.path.join(V, "selftest", "results.json"), "w"), indent=1)
    print("unexpected outcomes: %d" % bad)
    sys.exit(1 if bad else 0)


main()
